#!/bin/bash
# usage: tools/baseline_compare.sh <repo-dir> [module ...]   (default modules: all in /w/out/gomods.txt)
# Runs the pinned test command and compares the set of passing tests with BASELINE.json stable_pass.
REPO=${1:-/repo}; shift
MODS=${@:-$(cat /w/out/gomods.txt)}
OUT=$(mktemp -d /tmp/bl.XXXX)
for m in $MODS; do (cd $REPO/$m && GOFLAGS=-mod=mod GOPROXY=off go test -json -vet=off -count=1 -timeout 25m ./... 2>/dev/null) ; done > $OUT/run.json
python3 - "$OUT/run.json" $MODS <<'PY'
import json,sys
passed=set()
for l in open(sys.argv[1]):
    try: e=json.loads(l)
    except: continue
    if e.get('Action')=='pass' and e.get('Test'): passed.add(e['Package']+'::'+e['Test'])
mods=sys.argv[2:]
b=json.load(open('/root/.vp/BASELINE.json'))
stable=set(b['stable_pass'])
def inmods(t):
    pkg=t.split('::')[0]
    rel=pkg.replace('github.com/redis/rueidis','.',1)
    rel=rel if rel!='.' else '.'
    top='.' if rel=='.' or rel.startswith('./internal') or rel.startswith('./rueidislock') or rel.startswith('./hack') else './'+rel.split('/')[1]
    return top in mods
want={t for t in stable if inmods(t)}
missing=sorted(want-passed)
print('stable in scope',len(want),'passed',len(want&passed),'missing',len(missing))
for t in missing[:40]: print('  MISSING',t)
sys.exit(1 if missing else 0)
PY
rc=$?; rm -rf $OUT; exit $rc
