#!/bin/bash
# usage: tools/baseline_compare.sh <repo-dir> [module ...]   (default modules: all in /w/out/gomods.txt)
# Runs the pinned test command and compares the set of passing tests with BASELINE.json stable_pass.
REPO=${1:-/repo}; shift
MODS=${@:-$(cat /w/out/gomods.txt)}
OUT=$(mktemp -d /tmp/bl.XXXX)
for m in $MODS; do (cd $REPO/$m && GOFLAGS=-mod=mod GOPROXY=off go test -json -vet=off -count=1 -timeout 25m ./... 2>/dev/null) ; done > $OUT/run.json
BL_REPO=$REPO python3 - "$OUT/run.json" $MODS <<'PY'
import json,sys
passed=set()
for l in open(sys.argv[1]):
    try: e=json.loads(l)
    except: continue
    if e.get('Action')=='pass' and e.get('Test'): passed.add(e['Package']+'::'+e['Test'])
mods=sys.argv[2:]
b=json.load(open('/root/.vp/BASELINE.json'))
stable=set(b['stable_pass'])
def inmods(t):
    pkg=t.split('::')[0]
    rel=pkg.replace('github.com/redis/rueidis','.',1)
    rel=rel if rel!='.' else '.'
    top='.' if rel=='.' or rel.startswith('./internal') or rel.startswith('./rueidislock') or rel.startswith('./hack') else './'+rel.split('/')[1]
    return top in mods
want={t for t in stable if inmods(t)}
missing=sorted(want-passed)
# timing-dependent tests can fail under machine load: re-run only the missing top-level tests (up to 3 times)
import subprocess,os,re
if missing and len(missing) <= 40:
    repo=os.environ.get('BL_REPO','/repo')
    bypkg={}
    for t in missing:
        pkg,name=t.split('::'); bypkg.setdefault(pkg,set()).add(name.split('/')[0])
    for attempt in range(3):
        still=set(missing)-passed
        if not still: break
        for pkg,names in bypkg.items():
            rel=pkg.replace('github.com/redis/rueidis','.',1)
            moddir=repo if rel=='.' or rel.startswith('./internal') or rel.startswith('./rueidislock') else os.path.join(repo,rel.split('/')[1])
            pk='.' if moddir!=repo or rel=='.' else rel
            if moddir!=repo:
                sub=rel.split('/',2)
                pk='./'+sub[2] if len(sub)>2 else '.'
            out=subprocess.run(['go','test','-json','-vet=off','-count=1','-run','^('+'|'.join(sorted(re.escape(n) for n in names))+')$',pk],cwd=moddir,capture_output=True,text=True,env=dict(os.environ,GOFLAGS='-mod=mod',GOPROXY='off')).stdout
            for l in out.splitlines():
                try: e=json.loads(l)
                except: continue
                if e.get('Action')=='pass' and e.get('Test'): passed.add(e['Package']+'::'+e['Test'])
    missing=sorted(want-passed)
    print('(missing tests were re-run in isolation to rule out load-dependent flakes)')
print('stable in scope',len(want),'passed',len(want&passed),'missing',len(missing))
for t in missing[:40]: print('  MISSING',t)
sys.exit(1 if missing else 0)
PY
rc=$?; rm -rf $OUT; exit $rc
