#!/usr/bin/env python3
"""usage: mkmut.py <out.diff> <file-relative-to-repo> <old> <new> [count]
Creates a unified diff replacing the (count-th, default: unique) occurrence of old by new."""
import sys, subprocess, tempfile, os, shutil
out, rel, old, new = sys.argv[1:5]
nth = int(sys.argv[5]) if len(sys.argv) > 5 else None
src = open('/repo/' + rel).read()
old = old.encode().decode('unicode_escape'); new = new.encode().decode('unicode_escape')
c = src.count(old)
if c == 0 or (c > 1 and nth is None):
    sys.exit(f"occurrences of old text: {c}")
if nth is None:
    dst = src.replace(old, new)
else:
    parts = src.split(old)
    dst = old.join(parts[:nth]) + new + old.join(parts[nth:])
d = tempfile.mkdtemp()
os.makedirs(os.path.join(d, 'a', os.path.dirname(rel)), exist_ok=True)
os.makedirs(os.path.join(d, 'b', os.path.dirname(rel)), exist_ok=True)
open(os.path.join(d, 'a', rel), 'w').write(src)
open(os.path.join(d, 'b', rel), 'w').write(dst)
p = subprocess.run(['diff', '-u', 'a/' + rel, 'b/' + rel], cwd=d, capture_output=True, text=True)
open(out, 'w').write(p.stdout)
shutil.rmtree(d)
print('wrote', out, len(p.stdout.splitlines()), 'lines')
