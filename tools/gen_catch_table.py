#!/usr/bin/env python3
"""usage: tools/gen_catch_table.py <seeded_matrix output>  -> rewrites the table between the
<!-- CATCH-TABLE --> markers of DESIGN.md from seeded/*/meta.json and the matrix output."""
import json, sys, os, re
rows = {}
for l in open(sys.argv[1]):
    p = l.split()
    if len(p) >= 3:
        rows[p[0]] = (p[2], p[3] if len(p) > 3 else '')
out = ['| Seeded change | What it does | Needs to manifest | Verdict of `./check` | Rules that fire |', '|---|---|---|---|---|']
def clip(s, n):
    s = re.sub(r'\s+', ' ', s or '').replace('|', '/')
    return s if len(s) <= n else s[:n-1].rsplit(' ', 1)[0] + ' …'
for d in sorted(os.listdir('/verif/seeded')):
    mp = f'/verif/seeded/{d}/meta.json'
    if not os.path.exists(mp):
        continue
    m = json.load(open(mp))
    st, rules = rows.get(d, ('not run', ''))
    out.append(f"| `{d}` | {clip(m.get('summary'), 230)} | {clip(m.get('needs_to_manifest'), 170)} | {st.lower()} | {rules.replace(',', ', ')} |")
s = open('/verif/DESIGN.md').read()
a, b = '<!-- CATCH-TABLE -->', '<!-- /CATCH-TABLE -->'
block = a + '\n' + '\n'.join(out) + '\n' + b
if a in s:
    s = s[:s.index(a)] + block + s[s.index(b) + len(b):]
else:
    s = s.rstrip('\n') + '\n\n' + block + '\n'
open('/verif/DESIGN.md', 'w').write(s)
print(len(out) - 2, 'rows')
