import json,sys
pid=sys.argv[1]
for l in open('/verif/properties.jsonl'):
    p=json.loads(l)
    if p['id']==pid: break
import glob,os
prev=[]
for r in ('r1','r2','r3','r4'):
    f=f'/tmp/mut/out/{pid}/{r}/meta.json'
    if os.path.exists(f):
        try: prev.append(r+': '+json.load(open(f)).get('summary','')[:300])
        except Exception: pass
prevtxt='\n'.join('  - '+x for x in prev)
print(f"""You are helping to evaluate a verification effort for the Go Redis client library redis/rueidis by producing *behaviour-preserving refactorings*.

Your scratch copy of the repository is the git worktree at /tmp/mut/{pid} (it is yours alone). Work ONLY inside /tmp/mut/{pid} and write your results ONLY under /tmp/mut/out/{pid}/ . Never read or modify /repo, /verif or any other directory under /tmp/mut. Do not commit anything. NEVER use `git stash` (shared between worktrees) and NEVER kill processes by name.

Here is a semantic property of the library that holds on the current code and must keep holding:

  id: {p['id']}
  title: {p['title']}
  statement: {p['statement']}
  code anchors: files {', '.join(p['anchors']['files'])}; mechanisms: {'; '.join(m['name']+' ('+m.get('where','')+')' for m in p['anchors']['mechanism'])}

An earlier round already produced these refactorings; yours must be DIFFERENT in kind and, where possible, in OTHER functions of the mechanism (do not re-create them or close variants):
{prevtxt}

TASK. Produce FOUR different, independent, BEHAVIOUR-PRESERVING changes (call them r5, r6, r7, r8) to the library's non-test Go source, in the functions named by the code anchors above (the code that implements this property). Each change must
  1. keep the observable behaviour EXACTLY the same for every input, schedule and fault (the property above must still hold, and nothing else may change either) - be rigorous about this: no change in locking discipline, no change in which goroutine does what, no change in evaluation order of operations with side effects, no change in error values;
  2. be the kind of refactoring a maintainer would realistically do: rename local variables, change a loop form (range <-> index loop, for-with-condition <-> for with break), invert an if/else, replace a short-circuit condition by nested ifs or an early return/continue, extract a small helper function or inline one, hoist a repeated expression into a local, use `defer` for an unlock where that is equivalent, replace a switch by if/else-if, reorder INDEPENDENT statements, split a long function, use a named constant;
  3. touch 5 to 40 lines;
  4. compile, and pass the existing tests of the package it touches.
The four should differ in kind and be in different functions where possible. Prefer the core functions of the mechanism over peripheral ones. Favour refactorings that move code between functions (extract a helper with parameters, inline a helper, split a function in two, move a statement block into a closure or out of one), hoist values into locals, convert if/else chains to switch or early returns, and change loop forms - the kinds of edits a maintainer does during clean-up. The machine is heavily loaded: timing-based tests may flake; for speed run only the tests of the touched code (-run with a pattern) plus build and vet, and re-run a failing test alone before deciding.

How to build and test offline (the sandbox has no network):
  cd /tmp/mut/{pid} && GOFLAGS=-mod=mod GOPROXY=off go build ./... && GOFLAGS=-mod=mod GOPROXY=off go vet . >/dev/null
  cd /tmp/mut/{pid} && GOFLAGS=-mod=mod GOPROXY=off go test -vet=off -count=1 -timeout 25m . 2>&1 | tail -20      (root package, about 3 minutes; tests that need a live Redis at 127.0.0.1:6379 fail on the unchanged tree too and do not count; sub-directories with their own go.mod are separate modules: cd into them)
  (do NOT set GOSUMDB or GOTOOLCHAIN.) To save time you may run the full package test once with all four changes applied together, and then make sure each change also compiles on its own.

OUTPUT for change X in {{r5,r6,r7,r8}} under /tmp/mut/out/{pid}/X/ :
  patch.diff   - `git diff` of that change alone against the unchanged tree (must apply with `git apply` at the worktree root)
  meta.json    - {{"property":"{pid}","summary":"what was changed","why_equivalent":"the argument that behaviour is exactly preserved","tests_run":"what you ran and the result"}}
Restore the worktree to the unchanged state at the end (git checkout -- .). Your final message should list the four changes in one or two lines each.
""")
