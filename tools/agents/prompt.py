import json,sys
pid=sys.argv[1]
for l in open('/verif/properties.jsonl'):
    p=json.loads(l)
    if p['id']==pid: break
print(f"""You are helping to evaluate a verification effort for the Go Redis client library redis/rueidis by producing *seeded defects*.

Your scratch copy of the repository is the git worktree at /tmp/mut/{pid} (it is yours alone). Work ONLY inside /tmp/mut/{pid} and write your results ONLY under /tmp/mut/out/{pid}/ . Never read or modify /repo, /verif or any other directory under /tmp/mut. Do not commit anything.

Here is a semantic property of the library that is supposed to always hold:

  id: {p['id']}
  title: {p['title']}
  statement: {p['statement']}
  quantified over: {p['quantifier']['text']}
  why the existing tests cannot settle it: {p['why_tests_cant']}
  code anchors: files {', '.join(p['anchors']['files'])}; mechanisms: {'; '.join(m['name']+' ('+m.get('where','')+')' for m in p['anchors']['mechanism'])}

TASK. Produce TWO different, independent changes (call them a and b) to the library's non-test Go source, each of which
  1. BREAKS this property (a real behavioural violation of the statement above, not a style change),
  2. still COMPILES, and still PASSES the existing test-suite of the module(s) it touches (see below how to run it),
  3. is REALISTIC - the kind of slip or well-meant "simplification"/"optimisation"/refactoring a maintainer could make in a code review sized change (a few lines, at most ~25), not sabotage with dead giveaways,
  4. needs something SPECIFIC to manifest: a particular interleaving, a fault or crash at a particular point, a multi-step sequence of operations, an unusual input, or two cooperating sites that each look fine alone. NOT something that ordinary use would expose at once.
The two changes should differ in kind and location (different functions / different mechanisms of the property) where possible.

For each change also write a DEMONSTRATION: a Go test file (package-internal _test.go file, using the repo's own test helpers / mock connections where useful, no network, no real Redis) that FAILS with the change applied and PASSES on the unchanged tree. Make the demonstration deterministic (use channels/hooks/mock pipes to force the schedule rather than sleeps where you can).

How to build and test offline (the sandbox has no network):
  cd /tmp/mut/{pid} && GOFLAGS=-mod=mod GOPROXY=off go build ./... && GOFLAGS=-mod=mod GOPROXY=off go vet ./... >/dev/null
  cd /tmp/mut/{pid} && GOFLAGS=-mod=mod GOPROXY=off go test -vet=off -count=1 -timeout 25m ./... 2>&1 | tail -40
  (do NOT set GOSUMDB or GOTOOLCHAIN.) The root module's run takes about 3 minutes. Sub-directories with their own go.mod (rueidiscompat, rueidisprob, rueidishook, rueidislimiter, rueidisaside, rueidislock is part of root, om, mock, rueidisotel) are separate modules: cd into them to test them.
  Some tests need a live Redis at 127.0.0.1:6379 and fail offline on the UNCHANGED tree too (e.g. everything in redis_test.go such as TestSingleClientIntegration/TestSentinel.../TestCluster...Integration, rueidislock tests, most of rueidisaside/rueidisprob/om). Those are not part of the pass criterion. So: first record which tests pass on the unchanged tree (`go test -json` and collect the names with Action=="pass"), then require that with your change every one of those still passes. Use `go test -json -vet=off -count=1 -timeout 25m ./... > file` and compare the sets of passing test names. A timing flake is possible (re-run the single test on both trees to tell a flake from a real failure).

Process for each change: edit the source in the worktree; run the full comparison; write the demo test; confirm demo fails with change and passes without (flip between states with `git diff > /tmp/mut/out/{pid}/cur.patch; git checkout -- .; git apply /tmp/mut/out/{pid}/cur.patch` -- NEVER use `git stash`: the stash is shared between all worktrees of the repository and other agents work concurrently; NEVER kill processes by name (pkill/killall), only by the PID you started); then save the results and restore the worktree to the unchanged state (git checkout -- . ; remove your demo files from the worktree) before starting the next change.

OUTPUT for change X in {{a,b}} under /tmp/mut/out/{pid}/X/ :
  patch.diff      - `git diff` of the non-test source change only (must apply with `git apply` at the worktree root)
  demo_test.go    - the demonstration test file (state in meta.json the directory it must be copied to and the `go test -run` command)
  meta.json       - {{"property":"{pid}","summary":"what was changed","why_it_breaks":"...","needs_to_manifest":"interleaving/fault/sequence/input needed","demo_dir":"relative dir where demo_test.go goes","demo_cmd":"go test -run ... ","tests_run":"what you ran and the pass-set comparison result","demo_result_with_change":"...","demo_result_without_change":"..."}}
If after a serious attempt you can only produce one valid change, deliver one and say so. Your final message should summarise both changes in a few lines each (files/functions touched, how it manifests, test results). Be careful and honest: if a candidate change makes an existing test fail, discard it and find another.
""")
