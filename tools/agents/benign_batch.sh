#!/bin/bash
# usage: benign_batch.sh <Cnn>...  -> tests r1..r4 of each
cd /verif
for p in "$@"; do for r in ${BENIGN_VARIANTS:-r1 r2 r3 r4}; do f=/tmp/mut/out/$p/$r/patch.diff; [ -f $f ] || { echo "$p/$r: missing"; continue; }; echo "$p/$r: $(tools/benign_test.sh $f $(python3 tools/benign_props.py $f) 2>&1 | tr '\n' '|')"; done; done
