#!/bin/bash
# usage: tools/seeded_matrix.sh [pattern]  -> prints "<id> <property> FLAGGED|MISSED|NOAPPLY" for every seeded change
cd "$(dirname "$0")/.."
for d in seeded/${1:-*}/; do
  id=$(basename $d); prop=${id%%-*}
  out=$(tools/mutest.sh $prop $d/patch.diff 2>&1 | tail -1)
  case "$out" in FLAGGED*) s=FLAGGED;; MISSED*) s=MISSED;; *) s="NOAPPLY";; esac
  echo "$id $prop $s"
done
