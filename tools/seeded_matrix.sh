#!/bin/bash
# usage: tools/seeded_matrix.sh [pattern] [jobs]
# prints "<id> <property> FLAGGED|MISSED|NOAPPLY <rules that fired> [anchor-only]" for every seeded change;
# "anchor-only" marks a change that is reported solely through a missing anchor or a vacuity count
# (i.e. not by a rule about the construct that was changed) - those deserve a rule of their own.
cd "$(dirname "$0")/.."
PAT=${1:-*}; J=${2:-6}
one() {
  d=$1
  id=$(basename "$d"); prop=${id%%-*}
  out=$(MUTEST_LINES=400 tools/mutest.sh "$prop" "$d/patch.diff" 2>&1)
  last=$(echo "$out" | tail -1)
  rules=$(echo "$out" | grep -o "violated R[0-9a-z@/]*" | awk '{print $2}' | sort -u | tr '\n' ',' | sed 's/,$//')
  nkeys=$(echo "$out" | grep -c "key: ")
  nanch=$(echo "$out" | grep "key: " | grep -c "|anchor|\||vacuity|")
  note=""
  case "$last" in FLAGGED*) s=FLAGGED; [ "$nkeys" -gt 0 ] && [ "$nkeys" -eq "$nanch" ] && note=" anchor-only";; MISSED*) s=MISSED;; *) s="NOAPPLY";; esac
  echo "$id $prop $s $rules$note"
}
export -f one
ls -d seeded/$PAT/ | sed 's#/$##' | xargs -P "$J" -I{} bash -c 'one {}' | sort
