#!/bin/bash
# usage: tools/seeded_matrix.sh [pattern]
# prints "<id> <property> FLAGGED|MISSED|NOAPPLY <rules that fired>" for every seeded change
cd "$(dirname "$0")/.."
for d in seeded/${1:-*}/; do
  id=$(basename $d); prop=${id%%-*}
  out=$(MUTEST_LINES=200 tools/mutest.sh $prop $d/patch.diff 2>&1)
  last=$(echo "$out" | tail -1)
  rules=$(echo "$out" | grep -o "violated R[0-9a-z@/]*" | awk '{print $2}' | sort -u | tr '\n' ',' | sed 's/,$//')
  case "$last" in FLAGGED*) s=FLAGGED;; MISSED*) s=MISSED;; *) s="NOAPPLY";; esac
  echo "$id $prop $s $rules"
done
