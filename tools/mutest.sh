#!/bin/bash
# usage: tools/mutest.sh <Cnn> <patch-file> [-R]
# Applies the patch (or reverse patch with -R) to a scratch copy of /repo's working tree,
# runs the property's check against it and removes the copy. Exit 0 = flagged, 1 = missed.
set -u
cd "$(dirname "$0")/.."
PROP=$1; PATCH=$(readlink -f "$2"); REV=${3:-}
export PATH=/opt/veriftools/go1.26.8/bin:$PATH GOTOOLCHAIN=local GOFLAGS=-mod=mod GOPROXY=off GOSUMDB=off
unset GOWORK
S=$(mktemp -d /tmp/rvscratch.XXXXXX)
trap 'rm -rf "$S"' EXIT
rsync -a --exclude .git /repo/ "$S/repo/"
mkdir -p "$S/verif"; cp known_findings.json "$S/verif/"
if ! (cd "$S/repo" && patch -p1 -s $REV < "$PATCH"); then echo "PATCH-DOES-NOT-APPLY $PATCH"; exit 2; fi
OUT=$(bin/rvcheck -prop "$PROP" -tier quick -repo "$S/repo" -verif "$S/verif" 2>&1)
rc=$?
echo "$OUT" | grep -v conda | grep -E "violated|key:|VIOLATION|obligations" | cut -c1-300 | head -${MUTEST_LINES:-12}
if [ $rc -ne 0 ]; then echo "FLAGGED $PROP $(basename $(dirname $PATCH))/$(basename $PATCH)"; exit 0; else echo "MISSED $PROP $PATCH"; exit 1; fi
