#!/usr/bin/env python3
"""Regenerate MANIFEST.json from the analyser's registry (bin/rvcheck -describe) and na_reasons.json."""
import json, subprocess, os
os.chdir(os.path.dirname(os.path.abspath(__file__)) + '/..')
reg = json.loads(subprocess.check_output(['bin/rvcheck', '-describe']))
props = [json.loads(l) for l in open('properties.jsonl')]
na = json.load(open('na_reasons.json'))
checks, nas = [], []
for p in props:
    pid = p['id']
    if pid in reg:
        d = reg[pid]
        checks.append({
            "property_id": pid,
            "quick_cmd": f"./check {pid} quick",
            "thorough_cmd": f"./check {pid} thorough",
            "evidence_file": f"evidence/{pid}.json",
            "replay_cmd_template": f"./check {pid} quick",
            "engine": "rvcheck",
            "level_claimed": {"category": "other",
                              "text": "Static decision of structural necessary conditions of the property on every path / call site of the anchored code (not a proof of the behaviour): " + d["explanation"] + " Not decided: " + d["not_decided"],
                              "design_ref": f"DESIGN.md section 2, {pid}"},
            "level_note": "Trusted base: go/types + go/ssa (x/tools v0.50.0) representation of /repo's working tree, the go1.26.8 loader, the documented contracts of the standard-library calls named in the rules, and the specification tables embedded in the rule file. Decides the structural clause(s) named above, not the behaviour.",
            "technique": d["technique"],
        })
    else:
        nas.append({"property_id": pid, "reason": na.get(pid, "structural clause designed (DESIGN.md section 2) but its check is not built; nothing is claimed")})
m = {
    "version": 1,
    "setup_cmd": "./setup.sh",
    "hooks": {"guard": "verif", "enable": "none needed: static analysis reads the source; no hook commits exist in /repo",
              "baseline_off_cmd": "tools/baseline_compare.sh /repo",
              "source_commits": [], "add_only": True},
    "engines": [{"name": "rvcheck", "path": "engine", "serves_properties": sorted(reg.keys()),
                 "kind_free_text": "repository-specific static analyser: rules over go/types + go/ssa (dominator guards, lock sets, typestate walks, who-may-call, bounds prover, table comparison); x/tools v0.50.0 built with go1.26.8"}],
    "checks": checks,
    "notes": "All claims are at level 'other': each check decides, from /repo's current source only, structural necessary conditions of its property (see DESIGN.md). Genuine defects found are repaired by fix: commits in /repo or listed in known_findings.json.",
    "not_applicable": nas,
}
json.dump(m, open('MANIFEST.json', 'w'), indent=1)
print(len(checks), 'checks,', len(nas), 'not applicable')
