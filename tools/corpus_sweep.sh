#!/bin/bash
# usage: tools/corpus_sweep.sh [jobs]
# Runs every corpus entry (hand mutants, seeded changes, reverted fixes, benign variants) against the
# quick check of its property on a scratch copy and prints the anomalies: a mutant / seeded change /
# reverted fix that is NOT flagged, a benign variant that IS. The thorough tier of each check does the
# same per property; this is the whole-corpus regression sweep used while changing the engine.
cd "$(dirname "$0")/.."
J=${1:-8}
one() {
  kind=$1; prop=$2; patch=$3; rev=${4:-}
  res=$(tools/mutest.sh "$prop" "$patch" $rev 2>&1 | tail -1 | awk '{print $1}')
  echo "$kind $prop $patch $res"
}
export -f one
{
  for f in selftest/mutants/C*.diff; do p=$(basename "$f" | cut -d- -f1); echo "mutant $p $f"; done
  for d in seeded/C*/; do p=$(basename "$d" | cut -d- -f1); echo "seeded $p ${d}patch.diff"; done
  for f in selftest/benign/C*.diff; do p=$(basename "$f" | cut -d- -f1); echo "benign $p $f"; done
  python3 - <<'PY'
import json
seen = set()
for k in json.load(open('known_findings.json')):
    if k.get('status') == 'fixed' and k.get('commit'):
        key = (k['property'], k['commit'])
        if key in seen:
            continue
        seen.add(key)
        print("revfix", k['property'], "selftest/fixes/%s.diff" % k['commit'], "-R")
PY
} | xargs -P "$J" -L 1 bash -c 'one "$@"' _ | awk '
  ($1=="benign" && $NF!="MISSED") || ($1!="benign" && $NF!="FLAGGED") {print "ANOMALY", $0}
  {n[$1" "$NF]++}
  END {for (k in n) print k, n[k]}'
