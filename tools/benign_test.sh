#!/bin/bash
# usage: tools/benign_test.sh <patch> [props...]  -> applies a behaviour-preserving patch to a scratch copy of
# /repo and runs the quick check of every (or the given) property on it; prints the properties that raise an alarm.
cd "$(dirname "$0")/.."
PATCH=$(readlink -f "$1"); shift
PROPS=${@:-$(bin/rvcheck -list)}
S=$(mktemp -d /tmp/rvbenign.XXXXXX); trap 'rm -rf "$S"' EXIT
rsync -a --exclude .git /repo/ "$S/repo/"; mkdir -p "$S/verif"; cp known_findings.json "$S/verif/"
(cd "$S/repo" && patch -p1 -s < "$PATCH") || { echo "PATCH-DOES-NOT-APPLY $PATCH"; exit 2; }
export PATH=/opt/veriftools/go1.26.8/bin:$PATH GOTOOLCHAIN=local GOFLAGS=-mod=mod GOPROXY=off GOSUMDB=off
bad=""
for p in $PROPS; do
  out=$(bin/rvcheck -prop $p -tier quick -repo "$S/repo" -verif "$S/verif" 2>&1) || { bad="$bad $p"; echo "$out" | grep -E "violated|key:" | head -6 | sed "s/^/   [$p] /"; }
done
echo "BENIGN $(basename $(dirname $PATCH))/$(basename $PATCH): alarms:${bad:- none}"
