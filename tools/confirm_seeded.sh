#!/bin/bash
# usage: tools/confirm_seeded.sh <Cnn> <variant a|b> [module ...]
# Confirms a sub-agent's seeded change in a fresh scratch worktree of /repo: it compiles, the
# stable baseline tests of the touched modules still pass, the demonstration fails with the change
# and passes without. On success copies it to /verif/seeded/<Cnn>-<variant>/ with a confirmation
# record; always removes the worktree.
set -u
ID=$1; V=$2; shift 2
SRC=/tmp/mut/out/$ID/$V
[ -f $SRC/patch.diff ] || { echo "no patch at $SRC"; exit 2; }
WT=/tmp/cf/$ID-$V
mkdir -p /tmp/cf; git -C /repo worktree remove --force $WT 2>/dev/null; rm -rf $WT
git -C /repo worktree add -q --detach $WT HEAD || exit 2
cleanup() { git -C /repo worktree remove --force $WT 2>/dev/null; rm -rf $WT; }
trap cleanup EXIT
DEMODIR=$(jq -r '.demo_dir // "."' $SRC/meta.json); DEMOCMD=$(jq -r .demo_cmd $SRC/meta.json | sed 's/[[:space:]]\+(.*$//')
MODS=${@:-$(cd $WT && git apply --numstat $SRC/patch.diff | awk '{print $3}' | while read f; do d=$(dirname $f); while [ "$d" != "." ] && [ ! -f $WT/$d/go.mod ]; do d=$(dirname $d); done; echo ./$d | sed 's#^\./\.$#.#'; done | sort -u)}
DEMOCMD=$(echo "$DEMOCMD" | sed "s#^cd \(\./\)\?$DEMODIR/\? *&& *##")
LOG=/tmp/cf/$ID-$V.log; : > $LOG
export GOFLAGS=-mod=mod GOPROXY=off
cp $SRC/demo_test.go $WT/$DEMODIR/zz_seeded_demo_test.go
echo "== demo WITHOUT change" >> $LOG
(cd $WT/$DEMODIR && timeout 900 bash -c "$DEMOCMD") >> $LOG 2>&1; rc_without=$?
(cd $WT && git apply $SRC/patch.diff) || { echo "RESULT $ID-$V patch-does-not-apply"; exit 1; }
echo "== build WITH change" >> $LOG
for m in $MODS; do (cd $WT/$m && go build ./... ) >> $LOG 2>&1 || { echo "RESULT $ID-$V build-fails"; exit 1; }; done
echo "== demo WITH change" >> $LOG
(cd $WT/$DEMODIR && timeout 900 bash -c "$DEMOCMD") >> $LOG 2>&1; rc_with=$?
rm -f $WT/$DEMODIR/zz_seeded_demo_test.go
echo "== baseline WITH change: $MODS" >> $LOG
if [ -n "${SKIP_BASELINE:-}" ]; then rc_base=0; echo "baseline already run: $SKIP_BASELINE" >> $LOG; else /verif/tools/baseline_compare.sh $WT $MODS >> $LOG 2>&1; rc_base=$?; fi
if [ $rc_base -ne 0 ]; then  # retry once to rule out timing flakes
  echo "== baseline retry" >> $LOG
  /verif/tools/baseline_compare.sh $WT $MODS >> $LOG 2>&1; rc_base=$?
fi
echo "RESULT $ID-$V demo_without_rc=$rc_without demo_with_rc=$rc_with baseline_rc=$rc_base mods=$MODS"
if [ $rc_without -eq 0 ] && [ $rc_with -ne 0 ] && [ $rc_base -eq 0 ]; then
  D=/verif/seeded/$ID-$V; mkdir -p $D
  cp $SRC/patch.diff $D/patch.diff; cp $SRC/demo_test.go $D/demo_test.go
  jq --arg ran "tools/confirm_seeded.sh in scratch worktree of /repo HEAD $(git -C /repo rev-parse --short HEAD): go build ok; demo '$DEMOCMD' exit $rc_with with the change and 0 without; tools/baseline_compare.sh on modules [$MODS]: all stable baseline tests pass with the change" \
     '{property: .property, breaks: .why_it_breaks, summary: .summary, needs_to_manifest: .needs_to_manifest, demo_dir: (.demo_dir // "."), demo_cmd: .demo_cmd, confirmed: $ran}' $SRC/meta.json > $D/meta.json
  echo "CONFIRMED $ID-$V"
else
  echo "NOT-CONFIRMED $ID-$V (see $LOG)"
fi
