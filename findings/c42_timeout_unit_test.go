package rueidiscompat

// Demonstration for the C42 known findings (R42b): copy this file into a scratch copy of
// /repo/rueidiscompat and run `go test -run TestC42Finding -count=1 .`; both tests fail on the
// pinned tree.
//
// MIGRATE's and CLIENT PAUSE's timeout argument is in milliseconds (Redis command reference), and
// go-redis v9 renders the time.Duration with formatMs for both (`migrate host port key db 10000`,
// `client pause 10000` for 10s). The adapter renders it in seconds: a caller that pauses clients
// for 10s pauses them for 10ms, and a MIGRATE given 10s to complete is given 10ms.
// (pipeline_test.go pins the seconds value in its golden argv, which is why this is recorded and
// not repaired.)

import (
	"context"
	"strings"
	"sync"
	"testing"
	"time"

	"github.com/redis/rueidis"
	"github.com/redis/rueidis/internal/cmds"
)

type c42Recorder struct {
	rueidis.Client
	mu   sync.Mutex
	argv [][]string
}

func (c *c42Recorder) B() rueidis.Builder { return cmds.NewBuilder(cmds.NoSlot) }

func (c *c42Recorder) Do(ctx context.Context, cmd rueidis.Completed) rueidis.RedisResult {
	c.mu.Lock()
	c.argv = append(c.argv, append([]string{}, cmd.Commands()...))
	c.mu.Unlock()
	return rueidis.RedisResult{}
}

func (c *c42Recorder) DoMulti(ctx context.Context, multi ...rueidis.Completed) []rueidis.RedisResult {
	c.mu.Lock()
	for _, cmd := range multi {
		c.argv = append(c.argv, append([]string{}, cmd.Commands()...))
	}
	c.mu.Unlock()
	return make([]rueidis.RedisResult, len(multi))
}

func (c *c42Recorder) Nodes() map[string]rueidis.Client { return map[string]rueidis.Client{"a": c} }

func (c *c42Recorder) Mode() rueidis.ClientMode { return rueidis.ClientModeStandalone }

func c42Adapter(t *testing.T) (Cmdable, *c42Recorder) {
	rec := &c42Recorder{} // only B, Do, Nodes and Mode are reached; nothing is sent
	return NewAdapter(rec), rec
}

func TestC42FindingClientPauseUnit(t *testing.T) {
	a, rec := c42Adapter(t)
	p := a.Pipeline() // the direct call first asks every node for its ROLE; a pipeline queues the command as it is
	p.ClientPause(context.Background(), 10*time.Second)
	p.Exec(context.Background())
	got := strings.Join(rec.argv[len(rec.argv)-1], " ")
	if got != "CLIENT PAUSE 10000" {
		t.Fatalf("ClientPause(10s) sends %q; Redis reads the number as milliseconds, go-redis sends `client pause 10000`", got)
	}
}

func TestC42FindingMigrateUnit(t *testing.T) {
	a, rec := c42Adapter(t)
	a.Migrate(context.Background(), "host", 6379, "k", 0, 10*time.Second)
	got := strings.Join(rec.argv[len(rec.argv)-1], " ")
	if got != "MIGRATE host 6379 k 0 10000" {
		t.Fatalf("Migrate(timeout=10s) sends %q; the timeout is in milliseconds, go-redis sends `migrate host 6379 k 0 10000`", got)
	}
}
