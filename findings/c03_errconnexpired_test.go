package rueidis

// Witness for the known finding C03/R03c (copy into the repository root and run
//   go test -vet=off -count=1 -run TestWitnessC03ExpiredMarkerOnWrittenCommand .
// ). A non-retryable, non-read-only command (INCR) has been written to the server when the
// connection lifetime expires. The pipe answers the call with errConnExpired, the value on which
// singleClient.Do / clusterClient.do / sentinelClient.Do unconditionally `goto retry`, so the
// command is sent (and possibly executed) a second time.

import (
	"context"
	"testing"
	"time"

	"github.com/redis/rueidis/internal/cmds"
)

func TestWitnessC03ExpiredMarkerOnWrittenCommand(t *testing.T) {
	p, mock, _, closeConn := setup(t, ClientOption{ConnLifetime: 100 * time.Millisecond, AlwaysPipelining: true})
	defer closeConn()
	received := make(chan struct{})
	go func() {
		mock.Expect("INCR", "k") // the server has received (and would execute) the command
		close(received)
		// it answers only after the lifetime timer fired and pipe.Close gave up waiting
	}()
	done := make(chan RedisResult, 1)
	go func() { done <- p.Do(context.Background(), cmds_incr("k")) }()
	<-received
	select {
	case resp := <-done:
		if resp.NonRedisError() == errConnExpired {
			t.Logf("WITNESS: INCR was written to the server, yet the call got the transparent-resend marker %v", resp.NonRedisError())
			t.Fail()
		}
	case <-time.After(5 * time.Second):
		t.Skip("call did not return")
	}
}

func cmds_incr(k string) Completed {
	return cmds.NewBuilder(cmds.NoSlot).Incr().Key(k).Build()
}
