package om

// Demonstration for the C40 known findings (R40e): copy this file into a scratch copy of
// /repo/om and run `go test -run TestC40Finding -count=1 .`; both tests fail on the pinned tree.
//
// The fake server below speaks just enough RESP for the client: it implements HSET/HGETALL as Redis
// does (HSET only touches the fields it is given) and executes hashSaveScript's logic by hand.

import (
	"bufio"
	"context"
	"fmt"
	"math"
	"net"
	"strconv"
	"strings"
	"sync"
	"testing"

	"github.com/redis/rueidis"
)

type c40Server struct {
	mu sync.Mutex
	h  map[string]map[string]string
}

func (s *c40Server) serve(c net.Conn) {
	defer c.Close()
	r := bufio.NewReader(c)
	for {
		line, err := r.ReadString('\n')
		if err != nil {
			return
		}
		n, _ := strconv.Atoi(strings.TrimSpace(line[1:]))
		args := make([]string, n)
		for i := range args {
			l, _ := r.ReadString('\n')
			sz, _ := strconv.Atoi(strings.TrimSpace(l[1:]))
			buf := make([]byte, sz+2)
			if _, err := readFull(r, buf); err != nil {
				return
			}
			args[i] = string(buf[:sz])
		}
		c.Write([]byte(s.exec(args)))
	}
}

func readFull(r *bufio.Reader, b []byte) (int, error) {
	n := 0
	for n < len(b) {
		m, err := r.Read(b[n:])
		n += m
		if err != nil {
			return n, err
		}
	}
	return n, nil
}

func bulk(v string) string { return fmt.Sprintf("$%d\r\n%s\r\n", len(v), v) }

func (s *c40Server) exec(a []string) string {
	s.mu.Lock()
	defer s.mu.Unlock()
	switch strings.ToUpper(a[0]) {
	case "HELLO":
		return "%1\r\n+proto\r\n:3\r\n"
	case "CLIENT":
		return "+OK\r\n"
	case "EVALSHA", "EVAL": // hashSaveScript by hand
		nk, _ := strconv.Atoi(a[2])
		key, argv := a[3], a[3+nk:]
		h := s.h[key]
		if argv[0] != "" {
			if v, ok := h[argv[0]]; ok && v != argv[1] {
				return "_\r\n"
			}
			ver, _ := strconv.ParseInt(argv[1], 10, 64)
			argv[1] = strconv.FormatInt(ver+1, 10)
		}
		if len(argv)%2 == 1 {
			argv = argv[:len(argv)-1]
		}
		if h == nil {
			h = map[string]string{}
			s.h[key] = h
		}
		for i := 0; i+1 < len(argv); i += 2 { // HSET: only the given fields are touched
			h[argv[i]] = argv[i+1]
		}
		return bulk(argv[1])
	case "HGETALL":
		h := s.h[a[1]]
		out := fmt.Sprintf("%%%d\r\n", len(h))
		for k, v := range h {
			out += bulk(k) + bulk(v)
		}
		return out
	}
	return "-ERR unknown command " + a[0] + "\r\n"
}

func c40Client(t *testing.T) rueidis.Client {
	ln, err := net.Listen("tcp", "127.0.0.1:0")
	if err != nil {
		t.Fatal(err)
	}
	t.Cleanup(func() { ln.Close() })
	srv := &c40Server{h: map[string]map[string]string{}}
	go func() {
		for {
			c, err := ln.Accept()
			if err != nil {
				return
			}
			go srv.serve(c)
		}
	}()
	client, err := rueidis.NewClient(rueidis.ClientOption{InitAddress: []string{ln.Addr().String()}, DisableCache: true, ForceSingleClient: true})
	if err != nil {
		t.Fatal(err)
	}
	t.Cleanup(client.Close)
	return client
}

type c40Ptr struct {
	Key string `redis:",key"`
	Ver int64  `redis:",ver"`
	N   *int64
}

// A successful Save of an entity whose pointer field became nil leaves the previously stored
// value in place: Fetch returns an entity that differs from the saved one.
func TestC40FindingNilPointerFieldNotStored(t *testing.T) {
	repo := NewHashRepository("c40", c40Ptr{}, c40Client(t))
	e := repo.NewEntity()
	five := int64(5)
	e.N = &five
	if err := repo.Save(context.Background(), e); err != nil {
		t.Fatal(err)
	}
	e.N = nil
	if err := repo.Save(context.Background(), e); err != nil {
		t.Fatal(err)
	}
	got, err := repo.Fetch(context.Background(), e.Key)
	if err != nil {
		t.Fatal(err)
	}
	if got.N != nil {
		t.Fatalf("saved N=nil successfully (ver %d), fetched N=%d", e.Ver, *got.N)
	}
}

type c40Inner struct{ F float64 }

type c40Struct struct {
	Key string `redis:",key"`
	Ver int64  `redis:",ver"`
	In  c40Inner
}

// A struct field that encoding/json cannot encode is dropped silently: Save reports success and
// advances the version, the stored hash keeps the old value.
func TestC40FindingMarshalErrorDropsField(t *testing.T) {
	repo := NewHashRepository("c40s", c40Struct{}, c40Client(t))
	e := repo.NewEntity()
	e.In.F = 1
	if err := repo.Save(context.Background(), e); err != nil {
		t.Fatal(err)
	}
	e.In.F = math.Inf(1)
	refused := func() (refused bool) {
		defer func() { refused = recover() != nil || refused }()
		return repo.Save(context.Background(), e) != nil
	}()
	if refused {
		return // an error or a panic (as JSONRepository does) is the right outcome
	}
	got, err := repo.Fetch(context.Background(), e.Key)
	if err != nil {
		t.Fatal(err)
	}
	if got.In.F != e.In.F {
		t.Fatalf("Save succeeded (ver %d) with In.F=%v, fetched In.F=%v", e.Ver, e.In.F, got.In.F)
	}
}
