package rueidis

// Witness for the known finding C05/R05b (copy into the repository root and run
//   go test -vet=off -count=1 -run TestWitnessC05RingPutIgnoresContext .
// ). With the ring queue full (more callers than slots, stalled server) a caller whose context
// is already cancelled stays parked in ring.PutOne: the ring has no cancellation path.

import (
	"context"
	"testing"
	"time"
)

func TestWitnessC05RingPutIgnoresContext(t *testing.T) {
	r := newRing(1) // 2 slots
	for i := 0; i < 2; i++ {
		r.PutOne(context.Background(), Completed{})
	}
	ctx, cancel := context.WithCancel(context.Background())
	cancel()
	done := make(chan struct{})
	go func() {
		r.PutOne(ctx, Completed{}) // third caller, context already done
		close(done)
	}()
	select {
	case <-done:
	case <-time.After(300 * time.Millisecond):
		t.Fatalf("WITNESS: PutOne with a cancelled context is still blocked after 300ms")
	}
}
