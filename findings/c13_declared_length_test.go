package rueidis

// Witness for the C13 defect repaired by the "fix: RESP decoder bounds preallocation" commit (copy
// into the repository root; fails on the tree before that commit, passes after it).

import (
	"bufio"
	"runtime"
	"strings"
	"testing"
)

func TestWitnessC13DeclaredLengths(t *testing.T) {
	for _, in := range []string{
		"%4611686018427387904\r\n", // length*2 overflows to a negative make length: panicked before the fix
		"$1073741824\r\nabc",       // 1 GiB declared, 3 bytes delivered: allocated 1 GiB before the fix
		"*100000000\r\n:1\r\n",     // 10^8 elements declared (4.8 GB of RedisMessage), one delivered
	} {
		var before, after runtime.MemStats
		runtime.ReadMemStats(&before)
		func() {
			defer func() {
				if r := recover(); r != nil {
					t.Errorf("WITNESS %q: decoder panicked: %v", in, r)
				}
			}()
			if _, err := readNextMessage(bufio.NewReader(strings.NewReader(in))); err == nil {
				t.Errorf("%q: expected an error", in)
			}
		}()
		runtime.ReadMemStats(&after)
		if d := after.TotalAlloc - before.TotalAlloc; d > 64<<20 {
			t.Errorf("WITNESS %q: decoder allocated %d MiB for %d received bytes", in, d>>20, len(in))
		}
	}
}
