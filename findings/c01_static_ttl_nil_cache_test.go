package rueidis

// Witness for the defect repaired by the "fix:" commit recorded under C01/R01i (copy into the
// repository root and run
//   go test -vet=off -count=1 -run TestWitnessC01StaticTTLWithCacheDisabled .
// ). With client-side caching disabled the pipe has no cache store. DoMultiCache then forwards
// the commands to DoMulti unchanged; a command built with ToStaticTTL() keeps its tag, the reader
// takes its "commit directly to the cache" branch for it and calls a method on the nil store: the
// reader goroutine panics and takes the whole process down.

import (
	"context"
	"testing"
	"time"

	"github.com/redis/rueidis/internal/cmds"
)

func TestWitnessC01StaticTTLWithCacheDisabled(t *testing.T) {
	p, mock, cancel, _ := setup(t, ClientOption{DisableCache: true, AlwaysPipelining: true})
	defer cancel()
	go func() {
		mock.Expect("GET", "a").Expect("GET", "b").ReplyString("1").ReplyString("2")
	}()
	b := cmds.NewBuilder(cmds.NoSlot)
	done := make(chan *redisresults, 1)
	go func() {
		done <- p.DoMultiCache(context.Background(),
			CT(b.Get().Key("a").Cache().ToStaticTTL(), time.Minute),
			CT(b.Get().Key("b").Cache().ToStaticTTL(), time.Minute))
	}()
	select {
	case rs := <-done:
		if v, err := rs.s[1].ToString(); err != nil || v != "2" {
			t.Fatalf("unexpected reply %q %v", v, err)
		}
	case <-time.After(3 * time.Second):
		t.Fatalf("WITNESS: no reply (the reader goroutine died)")
	}
}
