package rueidis

// Witness for the known finding C08/R08 (copy into the repository root and run
//   go test -vet=off -count=1 -run TestWitnessC08 .
// ). The cache identity of a command is the concatenation of its tokens without any framing, so
// two different commands on the same key can have the same identity; the SimpleCache adapter
// additionally concatenates key and identity, so commands on different keys can collide too.

import (
	"testing"
	"time"

	"github.com/redis/rueidis/internal/cmds"
)

func TestWitnessC08CacheKeyUnframed(t *testing.T) {
	b := cmds.NewBuilder(cmds.NoSlot)
	k1, c1 := cmds.CacheKey(b.Getrange().Key("k").Start(1).End(23).Cache())
	k2, c2 := cmds.CacheKey(b.Getrange().Key("k").Start(12).End(3).Cache())
	if k1 == k2 && c1 == c2 {
		t.Fatalf("WITNESS: GETRANGE k 1 23 and GETRANGE k 12 3 share the cache identity (%q,%q)", k1, c1)
	}
}

type witnessC08Store struct{ m map[string]RedisMessage }

func (s *witnessC08Store) Get(key string) RedisMessage      { return s.m[key] }
func (s *witnessC08Store) Set(key string, val RedisMessage) { s.m[key] = val }
func (s *witnessC08Store) Del(key string)                   { delete(s.m, key) }
func (s *witnessC08Store) Flush()                           { s.m = map[string]RedisMessage{} }

func TestWitnessC08AdapterKeyPlusCmd(t *testing.T) {
	b := cmds.NewBuilder(cmds.NoSlot)
	k1, c1 := cmds.CacheKey(b.Getbit().Key("aH").Offset(5).Cache())
	k2, c2 := cmds.CacheKey(b.Hget().Key("a").Field("BIT5").Cache())
	if k1 == k2 {
		t.Skip("keys equal")
	}
	a := NewSimpleCacheAdapter(&witnessC08Store{m: map[string]RedisMessage{}})
	now := time.Now()
	if v, e := a.Flight(k1, c1, time.Minute, now); v.typ != 0 || e != nil {
		t.Fatalf("first flight should be the owner")
	}
	m := strmsg('+', "reply-of-GETBIT")
	m.setExpireAt(now.Add(time.Minute).UnixMilli())
	a.Update(k1, c1, m)
	if v, _ := a.Flight(k2, c2, time.Minute, now); v.typ != 0 {
		t.Fatalf("WITNESS: HGET a BIT5 is served the cached reply of GETBIT aH 5: %q (store key %q == %q)", v.string(), k1+c1, k2+c2)
	}
}
